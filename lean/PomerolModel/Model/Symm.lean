/-
  Models of `Symmetrizer` (src/pomerol/Symmetrizer.cpp), `StatesClassification`
  (src/pomerol/StatesClassification.cpp), the block maps of `FieldOperator`
  (src/pomerol/FieldOperator.cpp) and the block matrix of `HamiltonianPart::prepare`
  (src/pomerol/HamiltonianPart.cpp).  Core Lean only.
-/
import PomerolModel.Model.Index

namespace Pomerol.Model.Symm
open Pomerol.Model Pomerol.Model.Idx Pomerol.Gen.Core

inductive SymErr where
  | szThrows      -- Sz constructor: numbers of up and down indices differ (Operator::exWrongLabel)
  | fuel          -- normal ordering ran out of fuel (never happens, see NormalizeTotal)
  | ub            -- the comparison read out of bounds
  deriving DecidableEq, Repr, Inhabited

section
variable {K : Type} [Add K] [Sub K] [Mul K] [Neg K] [Zero K] [One K] [CoefTest K]

/-- `Symmetrizer::checkSymmetry`: commutes with H and with every `n_i`. -/
def checkSymmetry (H : Poly K) (nmodes : Nat) (op : Poly K) : Except SymErr Bool :=
  match Poly.commutes eqLengthTest H op with
  | none => .error .ub
  | some false => .ok false
  | some true => do
    let ok1 ← (List.range nmodes).foldlM (fun (ok : Bool) i =>
      if !ok then pure false else
      match Poly.commutes eqLengthTest (opN i) op with
      | none => .error .ub
      | some b => pure b) true
    if !ok1 || !additivityTest then pure ok1 else
    (List.range nmodes).foldlM (fun (ok : Bool) i =>
      if !ok then pure false else
      match Poly.commutator op (opCdag i) with
      | none => .error .fuel
      | some comm => pure (comm.all fun mc => mc.1 == [⟨false, i⟩])) true

/-- `Symmetrizer::compute(vector<Operator>)`: the accepted ones, in order. -/
def computeCustom (H : Poly K) (nmodes : Nat) (ops : List (Poly K)) : Except SymErr (List (Poly K)) :=
  ops.foldlM (fun acc op => do
    let ok ← checkSymmetry H nmodes op
    pure (if ok then acc ++ [op] else acc)) []

/-- `Symmetrizer::compute(bool ignore_symmetries)`: candidates N and (when every spin label is 0/1) S_z.
`half` is the coefficient 0.5. -/
def computeDefault (H : Poly K) (tbl : List IndexInfo) (ignore : Bool) (half : K) : Except SymErr (List (Poly K)) :=
  if ignore then .ok [] else do
    let nmodes := tbl.length
    let opn : Poly K := opNTotal nmodes
    let okN ← checkSymmetry H nmodes opn
    let acc : List (Poly K) := if okN then [opn] else []
    let validSz := tbl.all fun x => x.spin = Pomerol.Gen.Presets.spinUp || x.spin = Pomerol.Gen.Presets.spinDown
    if !validSz then pure acc else
    let ups := (List.range nmodes).filter fun i => (tbl.getD i default).spin = Pomerol.Gen.Presets.spinUp
    let downs := (List.range nmodes).filter fun i => !(ups.contains i)
    if ups.length ≠ downs.length then (if szGuardedByEqualCounts then pure acc else .error .szThrows) else
    let opsz : Poly K := opSz half ups downs
    let okS ← checkSymmetry H nmodes opsz
    pure (if okS then acc ++ [opsz] else acc)

/-- quantum numbers of a Fock state: `sym_op[n]->getMatrixElement(state, state)` -/
def quantumNumbers (ops : List (Poly K)) (s : Nat) : List K := ops.map fun op => matrixElement op s s

end

/-! ### identification of quantum numbers that agree within the tolerance (first come, first served)

`StatesClassification::compute` keeps, per symmetry operation, the list of values seen so far; a new value `v` is
replaced by the first known value `k` with `close v k` (in the code `|v - k| <= 1e-10 * max(1, |k|)`), otherwise it
becomes known itself. -/

/-- one value against the known values of its operation: (value used, updated known values) -/
def snap {Q : Type} (close : Q → Q → Bool) (known : List Q) (v : Q) : Q × List Q :=
  match known.find? (fun k => close v k) with
  | some k => (k, known)
  | none => (v, known ++ [v])

/-- the quantum numbers of one Fock state against the known values of every operation -/
def snapRow {Q : Type} (close : Q → Q → Bool) : List (List Q) → List Q → List Q × List (List Q)
  | k :: ks, v :: vs =>
    let r := snap close k v
    let rest := snapRow close ks vs
    (r.1 :: rest.1, r.2 :: rest.2)
  | [], vs => (vs, [])
  | ks, [] => ([], ks)

/-- all Fock states in ascending order (`rows[s]` = raw quantum numbers of state `s`, `nops` operations) -/
def snapAll {Q : Type} (close : Q → Q → Bool) (nops : Nat) (rows : List (List Q)) : List (List Q) :=
  (rows.foldl (fun (acc : List (List Q) × List (List Q)) row =>
      let r := snapRow close acc.2 row
      (acc.1 ++ [r.1], r.2)) ([], List.replicate nops [])).1

/-- `StatesClassification::compute`: ascending scan of the Fock states, blocks numbered by first
appearance of their quantum numbers (compared through `qeq`; the code compares hashes of the bit
patterns). Returns the block of every state and the states of every block. -/
def classify {Q : Type} (qeq : Q → Q → Bool) (qn : Nat → Q) (nstates : Nat) : List Nat × List (List Nat) :=
  let (blkOf, blocks, _) := (List.range nstates).foldl
    (fun (acc : List Nat × List (List Nat) × List Q) s =>
      let (blkOf, blocks, reps) := acc
      let q := qn s
      match reps.findIdx? (qeq q) with
      | some b => (blkOf ++ [b], blocks.modify b (· ++ [s]), reps)
      | none => (blkOf ++ [blocks.length], blocks ++ [[s]], reps ++ [q]))
    ([], [], [])
  (blkOf, blocks)

/-- `getInnerState`: position of a state inside *its own* block -/
def innerState (blkOf : List Nat) (blocks : List (List Nat)) (s : Nat) : Option Nat :=
  match blkOf[s]? with
  | none => none
  | some b => (blocks.getD b []).findIdx? (· = s)

section
variable {K : Type} [Add K] [Sub K] [Mul K] [Neg K] [Zero K] [One K] [CoefTest K]

/-- `FieldOperator::mapsTo(RightIndex)`: the block of the first non-annihilated state's image -/
def mapsTo (op : Poly K) (blkOf : List Nat) (states : List Nat) : Option Nat :=
  match states.findSome? (fun s => match actPoly op s with | [] => none | (t, _) :: _ => some t) with
  | none => none
  | some t => blkOf[t]?

/-- `CreationOperator/AnnihilationOperator/QuadraticOperator::prepare`: parts in order of the right block,
and the bimap (an insertion whose left or right key is already present is silently rejected). -/
def blockMap (op : Poly K) (blkOf : List Nat) (blocks : List (List Nat)) :
    List (Nat × Nat) × List (Nat × Nat) :=   -- (parts as (left, right)), (bimap as (left, right))
  (List.range blocks.length).foldl (fun (acc : List (Nat × Nat) × List (Nat × Nat)) r =>
    match mapsTo op blkOf (blocks.getD r []) with
    | none => acc
    | some l =>
      let bm := if acc.2.any (fun p => p.1 = l || p.2 = r) then acc.2 else acc.2 ++ [(l, r)]
      (acc.1 ++ [(l, r)], bm)) ([], [])

/-- `HamiltonianPart::prepare`: entries `(row, col, value)` written into the block matrix; the row is
the inner index of the image state *in its own block* (`none` = `exWrongState`). Later writes overwrite. -/
def blockMatrixWrites (H : Poly K) (blkOf : List Nat) (blocks : List (List Nat)) (b : Nat) :
    List (Option Nat × Nat × K) :=
  let sts := blocks.getD b []
  (List.range sts.length).flatMap fun col =>
    (actPoly H (sts.getD col 0)).map fun (bra, v) => (innerState blkOf blocks bra, col, v)

end
end Pomerol.Model.Symm
