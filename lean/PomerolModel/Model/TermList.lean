/-
  Model of `TermList<TermType>` (include/pomerol/TermList.h) as used for the single-particle Green's
  function and the susceptibility: a `std::set<Term, Compare>` in which like terms (equivalent w.r.t.
  `Compare`) are merged by adding residues -- the pole of the term that was there first is kept -- and a
  merged term is removed when `IsNegligible(sum, size + 1)`.

  `less` and `negl` are the two predicates (their concrete forms are extracted from the source into
  `Generated/GFFormulas.lean`: `termLess`, `termNegligible`).  The model additionally records, as ghost
  output, every term that was removed.  Core Lean only.
-/
namespace Pomerol.Model.TermList

structure Term (K R : Type) where
  res : K
  pole : R
  deriving Repr

variable {K R : Type} [Add K]

/-- `std::set::find`: the first element equivalent to `t` (neither is less than the other) -/
def findEquiv (less : R → R → Bool) (t : Term K R) : List (Term K R) → Option (Term K R)
  | [] => none
  | e :: rest => if !less e.pole t.pole && !less t.pole e.pole then some e else findEquiv less t rest

/-- ordered insertion (`std::set::insert` of an element with no equivalent present) -/
def insertSorted (less : R → R → Bool) (t : Term K R) : List (Term K R) → List (Term K R)
  | [] => [t]
  | e :: rest => if less t.pole e.pole then t :: e :: rest else e :: insertSorted less t rest

/-- erase the first element equivalent to `t` (`data.erase(*it)`) -/
def eraseEquiv (less : R → R → Bool) (t : Term K R) : List (Term K R) → List (Term K R)
  | [] => []
  | e :: rest => if !less e.pole t.pole && !less t.pole e.pole then rest else e :: eraseEquiv less t rest

/-- `TermList::add_term`; returns the new container and the term that was dropped, if any -/
def addTerm (less : R → R → Bool) (negl : K → Nat → Bool) (data : List (Term K R)) (t : Term K R) :
    List (Term K R) × Option (Term K R) :=
  match findEquiv less t data with
  | none => (insertSorted less t data, none)
  | some e =>
    let sum : Term K R := { res := e.res + t.res, pole := e.pole }
    let data' := eraseEquiv less e data
    if negl sum.res (data'.length + 1) then (data', some sum) else (insertSorted less sum data', none)

/-- adding a whole sequence of terms: final container and the list of dropped terms (ghost) -/
def addAll (less : R → R → Bool) (negl : K → Nat → Bool) :
    List (Term K R) → List (Term K R) → List (Term K R) → List (Term K R) × List (Term K R)
  | data, dropped, [] => (data, dropped)
  | data, dropped, t :: ts =>
    match addTerm less negl data t with
    | (d, none) => addAll less negl d dropped ts
    | (d, some x) => addAll less negl d (dropped ++ [x]) ts

end Pomerol.Model.TermList
