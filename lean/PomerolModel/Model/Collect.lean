/-
  Model of what the callers of `mpi_skel::run` do with the returned job-to-rank map
  (src/pomerol/Hamiltonian.cpp : `Hamiltonian::prepare`, `Hamiltonian::compute`;
   src/pomerol/TwoParticleGF.cpp : `TwoParticleGF::compute`, `ComputeAndClearWrap::run`).

  (a) DATA DISTRIBUTION.  After the dispatch every caller runs

        for p in 0 .. parts.size()-1:  broadcast(comm, data_of_part_p, root = job_map[p])

      (`Hamiltonian::prepare` : the matrix `H`; `Hamiltonian::compute` : eigenvectors `H` and `Eigenvalues`;
      `TwoParticleGF::compute` without `clear` : `NonResonantTerms`, `ResonantTerms`).  The state of one rank is a
      list with one entry per part (`Store`): `some v` = the rank holds the value `v` for that part, `none` = it
      holds nothing.  Right after the dispatch a rank holds `some (result p)` for the parts it has executed itself;
      for all other parts it holds an arbitrary STALE entry (in `Hamiltonian::compute` this is the not yet
      diagonalised matrix left by `prepare`, in `TwoParticleGF::compute` empty term lists).  A broadcast with root
      `owner p` overwrites entry `p` of EVERY rank of the communicator with the root's current entry `p`.  An
      entry `none` at the root corresponds to the path `ERROR("Worker didn't calculate part")` + `throw` of
      `Hamiltonian.cpp`; a root outside the communicator (an MPI error) is modelled as "everybody receives `none`".
      `job_map[p]` is `std::map::operator[]`: a missing key reads as rank 0 (`ownerOfMap`).

  (b) TABLE REDUCTION.  `TwoParticleGF::compute` gives every rank a table `m_data` with one entry per requested
      frequency triple, initially 0.  `ComputeAndClearWrap::run` of part `p`, executed on rank `r`, performs
      `m_data[w] += value_p(freqs[w])` for every `w` (an `omp parallel for`: the iterations touch different
      entries, so the loop is a map over the entries).  After the dispatch
      `boost::mpi::reduce(comm, m_data, m_data2, std::plus, 0)` delivers on rank 0 the entrywise sum over the ranks
      and `std::swap(m_data, m_data2)` makes it the returned table; on the other ranks `m_data2` is still all zero.
      Input of the model: the execution log `(part, rank)` in execution order -- the same object as the ghost
      field `Sys.log` of the dispatcher model -- and the contribution vector `contrib p` of every part
      (entry `w` beyond its length reads as 0).

  The entries of the tables live in an abstract type with `+` and `0`; floating-point rounding, and therefore the
  dependence of a floating-point sum on the order of its terms, is NOT modelled.

  Core Lean only.
-/
import PomerolModel.Model.Dispatcher

namespace Pomerol.Model.Collect

/-! ### (a) broadcast of the parts -/

/-- what one rank holds: entry `p` = data of part `p` -/
abbrev Store (α : Type) := List (Option α)

/-- what all ranks hold: element `r` = store of rank `r` -/
abbrev World (α : Type) := List (Store α)

/-- entry `p` of rank `r` (`none` outside the communicator / outside the part list) -/
def entry {α : Type} (w : World α) (r p : Nat) : Option α := (w.getD r []).getD p none

/-- The world right after the dispatch: `ran r p` says that rank `r` has executed part `p`; such a rank holds
the computed `result p`, every other rank holds the arbitrary stale entry `stale r p`. -/
def initWorld {α : Type} (P J : Nat) (ran : Nat → Nat → Bool) (result : Nat → α)
    (stale : Nat → Nat → Option α) : World α :=
  (List.range P).map fun r => (List.range J).map fun p => if ran r p then some (result p) else stale r p

/-- `broadcast(comm, data_of_part_p, root = owner p)` -/
def bcastStep {α : Type} (owner : Nat → Nat) (w : World α) (p : Nat) : World α :=
  let v := entry w (owner p) p
  w.map fun st => st.set p v

/-- `for (p = 0; p < parts.size(); p++) broadcast(comm, data_of_part_p, job_map[p])` -/
def bcastAll {α : Type} (J : Nat) (owner : Nat → Nat) (w : World α) : World α :=
  (List.range J).foldl (bcastStep owner) w

/-- "the ranks did what the map says": rank `r` executed part `p` iff the map names `r` for `p` -/
def ranByMap (owner : Nat → Nat) (r p : Nat) : Bool := owner p == r

/-- who executed what, read off an execution log of `(part, rank)` pairs -/
def ranByLog (log : List (Nat × Nat)) (r p : Nat) : Bool := log.contains (p, r)

/-- `job_map[p]` for the `DispatchMap` of the dispatcher model (`std::map::operator[]`: a missing key
reads as 0) -/
def ownerOfMap (d : List (Nat × Nat)) (p : Nat) : Nat := (Disp.dmapGet d p).getD 0

/-! ### (b) accumulation and reduction of the frequency tables -/

/-- `m_data.resize(freqs.size(), 0.0)` -/
def zeroTable {β : Type} [Zero β] (F : Nat) : List β := List.replicate F 0

/-- `for w: t[w] += c[w]` (also the entrywise `std::plus` of the reduction) -/
def accumulate {β : Type} [Add β] [Zero β] (t c : List β) : List β :=
  (List.range t.length).map fun w => t.getD w 0 + c.getD w 0

/-- the table of rank `r` after the dispatch: the contributions of the parts executed on `r`, in execution
order -/
def localTable {β : Type} [Add β] [Zero β] (F : Nat) (contrib : Nat → List β) (log : List (Nat × Nat))
    (r : Nat) : List β :=
  (log.filter fun x => x.2 == r).foldl (fun t x => accumulate t (contrib x.1)) (zeroTable F)

/-- the table `boost::mpi::reduce(…, std::plus, 0)` delivers on rank 0: the entrywise sum over the ranks
(taken in rank order; MPI leaves the order open) -/
def reduceTables {β : Type} [Add β] [Zero β] (P F : Nat) (contrib : Nat → List β) (log : List (Nat × Nat)) :
    List β :=
  (List.range P).foldl (fun acc r => accumulate acc (localTable F contrib log r)) (zeroTable F)

/-- the table every rank returns from `TwoParticleGF::compute`: the reduced table on rank 0, zeros elsewhere
(`m_data2` is only written on the root) -/
def reduceWorld {β : Type} [Add β] [Zero β] (P F : Nat) (contrib : Nat → List β) (log : List (Nat × Nat)) :
    List (List β) :=
  (List.range P).map fun r => if r = 0 then reduceTables P F contrib log else zeroTable F

/-- the execution log in which every part `p < J` is executed once, by the rank `owner p`, in part order -/
def ownerLog (J : Nat) (owner : Nat → Nat) : List (Nat × Nat) := (List.range J).map fun p => (p, owner p)

/-- the table a single rank accumulates when it executes the parts `0 … J-1` in order -/
def serialTable {β : Type} [Add β] [Zero β] (J F : Nat) (contrib : Nat → List β) : List β :=
  (List.range J).foldl (fun t p => accumulate t (contrib p)) (zeroTable F)

end Pomerol.Model.Collect
