/-
  Executable model of the LOOP STRUCTURE of the dynamical susceptibility:

  * `SusceptibilityPart::compute` (src/pomerol/SusceptibilityPart.cpp).  The control flow of the double
    loop -- outer index `index1`, an inner iterator `Ainner` over row `index1` of the row-major block of
    `A`, an inner iterator `Binner` over column `index1` of the column-major block of `B`, the test
    `A_index2 == B_index2`, the two advancing `for` loops
    `if(B_index2 < A_index2) for(;Binner && Binner.index()<A_index2; ++Binner);`
    `else for(;Ainner && Ainner.index()<B_index2; ++Ainner);` -- is, token for token, the one of
    `GreensFunctionPart::compute` (with `C := A`, `CX := B`), and it does not depend on what is done with
    a coinciding pair (both iterators are incremented in either branch).  Hence the walk IS
    `GFPart.rowWalk` / `GFPart.compute` with the test `keep := true`; the flags of the two advancing
    loops are entries 2 and 3 of `Gen.Core.chaseGuardFirst` (SusceptibilityPart x2).
    What differs is the BODY for a coinciding pair:
      `Pole = HpartInner.getEigenValue(A_index2) - HpartOuter.getEigenValue(index1);`
      `if(abs(Pole) < ReduceResonanceTolerance) ZeroPoleWeight += a*b*DMpartOuter.getWeight(index1);`
      `else { Residue = a*b*(wOuter - wInner); if(abs(Residue) > MatrixElementTolerance) add_term }`
    modelled by `classify`, folded over the contributions in the order of emission.
    `ZeroPoleWeight` is a member initialised to `0` by the constructor and NOT reset by `compute()`
    (only `Terms.clear()` is called), so the fold starts from the current value `zpw0`;
    `Susceptibility::compute` calls `compute()` of every part once (guarded by `Status`).

  * `Susceptibility::prepare` (src/pomerol/Susceptibility.cpp): the LEFT view of `A`'s block bimap
    (`ANontrivialBlocks.left`, ordered by the left index) and the RIGHT view of `B`'s block bimap
    (`BNontrivialBlocks.right`, ordered by the right index; `Bleft = Biter->second`,
    `Bright = Biter->first`) are walked in parallel comparing `Aleft` with `Bright`; a part is created
    when `Aleft == Bright && Aright == Bleft` and `DM.isRetained(Aleft) || DM.isRetained(Aright)`;
    `if(AleftInt <= BrightInt) Aiter++; if(AleftInt >= BrightInt) Biter++;`.  The part gets
    `A.getPartFromLeftIndex(Aleft)`, `B.getPartFromRightIndex(Bright)`, `HpartInner = H.getPart(Aright)`,
    `HpartOuter = H.getPart(Aleft)`, `DMpartInner = DM.getPart(Aright)`, `DMpartOuter = DM.getPart(Aleft)`.
    Views, comparisons, advancing rule and constructor arguments coincide with `GreensFunction::prepare`
    (`C := A`, `CX := B`), so the walk IS `GFPart.prepare`.

  * `SusceptibilityPart::operator()(z)`: `Terms(z) + (abs(z) < 1e-15 ? ZeroPoleWeight*beta : 0)` and
    `Susceptibility::operator()(z)`: the sum over the parts (`partValue`, `susceptibilityValue`).

  Core Lean only.
-/
import PomerolModel.Model.GFPart
import PomerolModel.Generated.SuscFormulas

namespace Pomerol.Model.SuscPart
open Pomerol.Model.Chase Pomerol.Model.GFPart

/-- the flags of the two advancing loops of `SusceptibilityPart::compute` as extracted from the source
(`Binner` loop, `Ainner` loop) -/
def sourceGuardB : Bool := (Pomerol.Gen.Core.chaseGuardFirst[2]?).getD false
def sourceGuardA : Bool := (Pomerol.Gen.Core.chaseGuardFirst[3]?).getD false

/-- the coinciding pairs `(index1, index2, Ainner.value(), Binner.value())` met by the double loop of
`SusceptibilityPart::compute`, in the order in which they are met: the walk of
`GreensFunctionPart::compute` with every coinciding pair passed on to the body -/
def contributions {V : Type} (gB gA : Bool) (A B : SpMat V) : Except Err (List (Contribution V)) :=
  GFPart.compute gB gA (fun _ _ _ _ => true) A B

section Terms
variable {R K : Type} [Add R] [Sub R] [Mul R] [Div R] [Neg R] [Zero R] [One R] [NatCast R]
  [LT R] [DecidableLT R] [HasExp R]
  [Add K] [Sub K] [Mul K] [Div K] [Neg K] [Zero K] [One K] [NatCast K] [HasExp K] [CplxOver R K]

/-- the state the loop body updates: the sequence of terms handed to `Terms.add_term` so far and
`ZeroPoleWeight` -/
abbrev PartState (K R : Type) := List (TermList.Term K R) × K

/-- The body of the loop for one coinciding pair.  `zero` is the zero-pole test (in the source
`abs(Pole) < ReduceResonanceTolerance`, i.e. `fun P => Gen.Susc.isZeroPole P rtol`), `tol` is
`MatrixElementTolerance`. -/
def classify (zero : R → Bool) (wOuter wInner eOuter eInner : Nat → R) (tol : R)
    (s : PartState K R) (p : Contribution K) : PartState K R :=
  -- RealType Pole = HpartInner.getEigenValue(A_index2) - HpartOuter.getEigenValue(index1);
  let pole : R := Gen.Susc.pole (eInner p.2.1) (eOuter p.1)
  if zero pole then
    -- ZeroPoleWeight += Ainner.value() * Binner.value() * DMpartOuter.getWeight(index1);
    (s.1, s.2 + Gen.Susc.zeroPoleIncrement p.2.2.1 p.2.2.2 (wOuter p.1))
  else
    let res : K := Gen.Susc.residue p.2.2.1 p.2.2.2 (wOuter p.1) (wInner p.2.1)
    -- if(abs(Residue) > MatrixElementTolerance) Terms.add_term(Term(Residue, Pole));
    if Gen.Susc.residueKept res tol then (s.1 ++ [{ res := res, pole := pole }], s.2) else s

/-- `SusceptibilityPart::compute`: the sequence of terms handed to `Terms.add_term` and the final
`ZeroPoleWeight`, starting from `ZeroPoleWeight = zpw0` -/
def computePart (gB gA : Bool) (zero : R → Bool) (wOuter wInner eOuter eInner : Nat → R) (tol : R)
    (zpw0 : K) (A B : SpMat K) : Except Err (PartState K R) :=
  match contributions gB gA A B with
  | .ok l => .ok (l.foldl (classify zero wOuter wInner eOuter eInner tol) ([], zpw0))
  | .error e => .error e

/-- the zero-pole test of the source: `abs(Pole) < ReduceResonanceTolerance` -/
def sourceZeroTest (rtol : R) : R → Bool := fun P => Gen.Susc.isZeroPole P rtol

/-- `computePart` with the flags, the zero-pole test and the constants the source has, for a freshly
constructed part (`ZeroPoleWeight(0)`) -/
def computePartSource (wOuter wInner eOuter eInner : Nat → R) (A B : SpMat K) :
    Except Err (PartState K R) :=
  computePart sourceGuardB sourceGuardA (sourceZeroTest (Gen.Susc.tolResonance : R))
    wOuter wInner eOuter eInner (Gen.Susc.tolMatrixElement : R) (0 : K) A B

/-- `Susceptibility::prepare`: the list of block pairs `(Aleft, Aright)` of the parts created.  `a` is
`ANontrivialBlocks.left`, `b` is `BNontrivialBlocks.right`, both as lists of `(left, right)` pairs -/
def prepare (retained : Nat → Bool) (a b : List (Nat × Nat)) : Except Err (List (Nat × Nat)) :=
  GFPart.prepare retained a b

/-- `for(iter = parts.begin(); …) (*iter)->compute();` -- the states of the parts, in order -/
def computeParts (part : Nat → Nat → Except Err (PartState K R)) :
    List (Nat × Nat) → Except Err (List (PartState K R))
  | [] => .ok []
  | (l, r) :: ps =>
    match part l r with
    | .ok s =>
      match computeParts part ps with
      | .ok rest => .ok (s :: rest)
      | .error e => .error e
    | .error e => .error e

/-- `Susceptibility::prepare` followed by `Susceptibility::compute`.  The part created for
`(Aleft, Aright)` gets `A.getPartFromLeftIndex(Aleft)` (`Ablk Aleft Aright`: row-major block
`<Aleft|A|Aright>`), `B.getPartFromRightIndex(Bright)` with `Bright = Aleft`, `Bleft = Aright`
(`Bblk Aright Aleft`: column-major block `<Aright|B|Aleft>`), `HpartInner = H.getPart(Aright)`,
`HpartOuter = H.getPart(Aleft)`, and likewise for the density-matrix parts; `w b n` / `E b n` are the
weight / energy of state `n` of block `b`.  Every part is freshly constructed (`ZeroPoleWeight = 0`). -/
def susceptibilityParts (gB gA : Bool) (retained : Nat → Bool) (zero : R → Bool)
    (a b : List (Nat × Nat)) (w E : Nat → Nat → R) (tol : R) (Ablk Bblk : Nat → Nat → SpMat K) :
    Except Err (List (PartState K R)) :=
  match prepare retained a b with
  | .ok parts =>
    computeParts
      (fun l r => computePart gB gA zero (w l) (w r) (E l) (E r) tol (0 : K) (Ablk l r) (Bblk r l))
      parts
  | .error e => .error e

/-- `Terms(z)`: the sum of `Term::operator()(z)` over the stored terms (here: over the sequence of
terms added; merging like terms adds residues of terms with equal poles) -/
def termsValue (z : K) (ts : List (TermList.Term K R)) : K :=
  ts.foldl (fun acc t => acc + Gen.Susc.termFreq t.res t.pole z) 0

/-- `SusceptibilityPart::operator()(z)`: `Terms(z) + (abs(z) < 1e-15 ? ZeroPoleWeight*beta : 0)` -/
def partValue (beta : R) (z : K) (s : PartState K R) : K :=
  termsValue z s.1 + Gen.Susc.zeroPoleValue s.2 beta z

/-- `Susceptibility::operator()(z)` without the disconnected part: `Value += (**iter)(z)` -/
def susceptibilityValue (beta : R) (z : K) (parts : List (PartState K R)) : K :=
  parts.foldl (fun acc s => acc + partValue beta z s) 0

end Terms

end Pomerol.Model.SuscPart
