/-
  Scalar interface shared by the generated formulas, the executable models and the
  specification layer.  Core Lean only (the compiled driver links this file).

  Generated formulas are polymorphic in two sorts: `R` (C++ `RealType`) and `K`
  (C++ `ComplexType`).  They only use the *core* algebraic classes (`Add`, `Mul`, …),
  so that at `ℝ`/`ℂ` they unfold to Mathlib's ordinary operations, plus the two small
  classes below.
-/
namespace Pomerol

/-- `std::exp`. -/
class HasExp (α : Type) where
  exp : α → α

/-- The complex sort over a real sort: embedding and modulus (`std::abs`). -/
class CplxOver (R K : Type) where
  ofReal : R → K
  abs : K → R

/-- `std::abs` on the real sort, as the C library computes it. -/
def absR {R : Type} [Neg R] [Zero R] [LT R] [DecidableLT R] (x : R) : R :=
  if x < 0 then -x else x

/-- `std::abs` on `long`. -/
def absI (x : Int) : Int := if x < 0 then -x else x

theorem absI_eq_natAbs (x : Int) : absI x = x.natAbs := by
  unfold absI; split <;> omega

/-! ### The `Float` instantiation used by the driver -/

instance : NatCast Float := ⟨Float.ofNat⟩
instance : HasExp Float := ⟨Float.exp⟩

/-- IEEE double complex numbers with the textbook operations (what `std::complex<double>`
computes up to the last-bit differences of its division algorithm). -/
structure CFloat where
  re : Float
  im : Float
  deriving Inhabited

namespace CFloat
def add (a b : CFloat) : CFloat := ⟨a.re + b.re, a.im + b.im⟩
def sub (a b : CFloat) : CFloat := ⟨a.re - b.re, a.im - b.im⟩
def mul (a b : CFloat) : CFloat := ⟨a.re * b.re - a.im * b.im, a.re * b.im + a.im * b.re⟩
def neg (a : CFloat) : CFloat := ⟨-a.re, -a.im⟩
def normSq (a : CFloat) : Float := a.re * a.re + a.im * a.im
def div (a b : CFloat) : CFloat :=
  let d := b.normSq
  ⟨(a.re * b.re + a.im * b.im) / d, (a.im * b.re - a.re * b.im) / d⟩
def conj (a : CFloat) : CFloat := ⟨a.re, -a.im⟩
def abs (a : CFloat) : Float := Float.sqrt a.normSq
def exp (a : CFloat) : CFloat :=
  let m := Float.exp a.re
  ⟨m * Float.cos a.im, m * Float.sin a.im⟩
def ofReal (x : Float) : CFloat := ⟨x, 0.0⟩
def I : CFloat := ⟨0.0, 1.0⟩
def smul (x : Float) (a : CFloat) : CFloat := ⟨x * a.re, x * a.im⟩
instance : Add CFloat := ⟨add⟩
instance : Sub CFloat := ⟨sub⟩
instance : Mul CFloat := ⟨mul⟩
instance : Div CFloat := ⟨div⟩
instance : Neg CFloat := ⟨neg⟩
instance : Zero CFloat := ⟨⟨0.0, 0.0⟩⟩
instance : One CFloat := ⟨⟨1.0, 0.0⟩⟩
instance : NatCast CFloat := ⟨fun n => ⟨Float.ofNat n, 0.0⟩⟩
instance : HasExp CFloat := ⟨exp⟩
instance : CplxOver Float CFloat := ⟨ofReal, abs⟩
end CFloat

instance : Zero Float := ⟨0.0⟩
instance : One Float := ⟨1.0⟩

end Pomerol
